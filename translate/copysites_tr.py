"""Read the copy discipline of mongomock off the source (C07): for every code path that moves
a value between the caller and the store, does it allocate fresh structure?  Each flag is
True only when the statements that make the copy are found in the expected place; anything
else (a removed copy, a rewritten function the checks do not recognise) yields False, so the
ownership model (coq/Model/Heap.v) then predicts sharing and the C07 theorem instance no
longer holds."""
import ast
import os


def _parse(repo, rel):
    return ast.parse(open(os.path.join(repo, 'mongomock', rel)).read())


def _func(tree, name, cls=None):
    for node in ast.walk(tree):
        if cls and isinstance(node, ast.ClassDef) and node.name == cls:
            for sub in node.body:
                if isinstance(sub, ast.FunctionDef) and sub.name == name:
                    return sub
        if not cls and isinstance(node, ast.FunctionDef) and node.name == name:
            return node
    return None


def _src(node):
    return ast.unparse(node)


def _is_call(node, dotted):
    return isinstance(node, ast.Call) and _src(node.func) == dotted


PATCH = 'helpers.patch_datetime_awareness_in_document'


def insert_copies(tree):
    """_insert: `data = patch(data)` precedes every `self._store[...] = data`, and nothing else
    is ever stored"""
    f = _func(tree, '_insert', 'Collection')
    if f is None:
        return False
    patched_at = None
    stores = []
    for i, st in enumerate(f.body):
        for node in ast.walk(st):
            if isinstance(node, ast.Assign) and len(node.targets) == 1:
                tgt, val = node.targets[0], node.value
                if isinstance(tgt, ast.Name) and tgt.id == 'data' and _is_call(val, PATCH) \
                        and len(val.args) == 1 and _src(val.args[0]) == 'data' and patched_at is None:
                    patched_at = i
                if isinstance(tgt, ast.Subscript) and _src(tgt.value) == 'self._store':
                    stores.append((i, _src(val)))
    return patched_at is not None and bool(stores) and all(i > patched_at and v == 'data' for i, v in stores)


def _update_loop(tree):
    f = _func(tree, '_update', 'Collection')
    if f is None:
        return None
    for node in ast.walk(f):
        if isinstance(node, ast.For) and 'existing_document' in _src(node.target) \
                and 'self._iter_documents(spec)' in _src(node.iter):
            return node
    return None


def update_operands_copied(tree):
    """the loop over the matched documents re-patches `document` first thing"""
    loop = _update_loop(tree)
    if loop is None or not loop.body:
        return False
    st = loop.body[0]
    # the copy is taken from `update_document`, an alias of the update as given that is bound
    # once before the loop and never assigned again
    f = _func(tree, '_update', 'Collection')
    binds = [n for n in ast.walk(f) if isinstance(n, ast.Assign) and len(n.targets) == 1
             and _src(n.targets[0]) == 'update_document']
    if len(binds) != 1 or _src(binds[0].value) != 'document' or any(binds[0] is n for n in ast.walk(loop)):
        return False
    return isinstance(st, ast.Assign) and len(st.targets) == 1 and _src(st.targets[0]) == 'document' \
        and _is_call(st.value, PATCH) and _src(st.value.args[0]) == 'update_document'


def update_doc_copied(tree):
    """an existing document is deep-copied before the operators touch it, and the copy is what
    gets stored"""
    loop = _update_loop(tree)
    if loop is None:
        return False
    found = False
    for node in ast.walk(loop):
        if isinstance(node, ast.Assign) and len(node.targets) == 1 \
                and _src(node.targets[0]) == 'existing_document' \
                and _src(node.value) == 'copy.deepcopy(existing_document)':
            found = True
    return found


def replace_copied(tree):
    f = _func(tree, '_internalize_dict', 'Collection')
    if f is None or len(f.body) != 1 or not isinstance(f.body[0], ast.Return):
        return False
    if _src(f.body[0].value) != '{k: copy.deepcopy(v) for k, v in d.items()}':
        return False
    loop = _update_loop(tree)
    if loop is None:
        return False
    return any(isinstance(n, ast.Call) and _src(n) == 'existing_document.update(self._internalize_dict(document))'
               for n in ast.walk(loop))


COPY_EXPR_PREFIXES = ('container()', '_copy_field(', '_project_by_spec(', 'copy.deepcopy(')


def _only_copies_assigned(func, target_names, extra_ok=()):
    """every assignment into one of target_names (or a subscript of it) has a copying right-hand side"""
    if func is None:
        return False
    ok = True
    seen = False
    for node in ast.walk(func):
        if isinstance(node, ast.Assign) and len(node.targets) == 1:
            tgt = node.targets[0]
            base = tgt.value if isinstance(tgt, ast.Subscript) else tgt
            if isinstance(base, ast.Name) and base.id in target_names:
                seen = True
                rhs = _src(node.value)
                if not (rhs.startswith(COPY_EXPR_PREFIXES) or rhs in extra_ok
                        or rhs.startswith('[_project_by_spec(')):
                    ok = False
    return ok and seen


def read_copied(tree):
    """_get_dataset yields _copy_only_fields(...); _copy_field rebuilds lists and dicts;
    _project_by_spec and _copy_only_fields only put copies into the document they build"""
    gd = _func(tree, '_get_dataset', 'Collection')
    if gd is None:
        return False
    yields = [n for n in ast.walk(gd) if isinstance(n, ast.Yield)]
    if not yields or any(not _src(y.value).startswith('self._copy_only_fields(document,') for y in yields):
        return False
    cf = _func(tree, '_copy_field')
    if cf is None:
        return False
    src = _src(cf)
    if 'new.append(_copy_field(item, container))' not in src or 'new[key] = _copy_field(value, container)' not in src \
            or 'return copy.copy(obj)' not in src:
        return False
    if not _only_copies_assigned(_func(tree, '_project_by_spec'), {'doc_copy'}):
        return False
    cof = _func(tree, '_copy_only_fields', 'Collection')
    if cof is None:
        return False
    for node in ast.walk(cof):
        if isinstance(node, ast.Return) and node.value is not None \
                and not _src(node.value).startswith(('_copy_field(', 'doc_copy')):
            return False
    return _only_copies_assigned(cof, {'doc_copy'})


def proj_id_copied(tree):
    cof = _func(tree, '_copy_only_fields', 'Collection')
    if cof is None:
        return False
    for node in ast.walk(cof):
        if isinstance(node, ast.Assign) and _src(node.targets[0]) == "doc_copy['_id']":
            return _src(node.value).startswith(('copy.deepcopy(', '_copy_field('))
    return False


def proj_ops_copied(tree):
    """_apply_projection_operators: what is taken from the stored document is copied; the other
    assignments only rearrange what already is in the copy"""
    f = _func(tree, '_apply_projection_operators', 'Collection')
    if f is None:
        return False
    for node in ast.walk(f):
        if isinstance(node, ast.Assign) and len(node.targets) == 1 and _src(node.targets[0]) == 'doc_copy[field]':
            rhs = _src(node.value)
            if rhs.startswith(('copy.deepcopy(', '_copy_field(')):
                continue
            if rhs in ('doc_copy[field][slice_]', '[item]'):
                continue
            return False
    # `item` must come from the copy
    for node in ast.walk(f):
        if isinstance(node, ast.For) and _src(node.target) == 'item' and _src(node.iter) != 'doc_copy[field]':
            return False
    return True


def aggregate_reads_copies(tree):
    f = _func(tree, 'aggregate', 'Collection')
    if f is None or not f.body:
        return False
    st = f.body[0]
    return isinstance(st, ast.Assign) and _src(st.value) == '[doc for doc in self.find()]'


def lookup_reads_copies(agg_tree):
    f = _func(agg_tree, '_handle_lookup_stage')
    if f is None:
        return False
    src = _src(f)
    return 'foreign_collection.find({foreign_field: query})' in src and '_iter_documents' not in src \
        and '_store' not in src


def generate(repo):
    tree = _parse(repo, 'collection.py')
    agg = _parse(repo, 'aggregate.py')
    flags = [
        ('cp_insert', insert_copies(tree), '_insert stores the rebuilt (patch_datetime_awareness) document only'),
        ('cp_update_operands', update_operands_copied(tree), 'every matched document gets a fresh copy of the update document'),
        ('cp_update_doc', update_doc_copied(tree), 'operators are applied to a deep copy of the stored document'),
        ('cp_replace', replace_copied(tree), 'a replacement is deep-copied field by field (_internalize_dict)'),
        ('cp_read', read_copied(tree), 'find/find_one/distinct/find_one_and_* hand out _copy_only_fields copies'),
        ('cp_proj_ops', proj_ops_copied(tree), 'projection operators copy what they take from the stored document'),
        ('cp_proj_id', proj_id_copied(tree), 'the _id put back by a projection is copied'),
        ('cp_aggregate', aggregate_reads_copies(tree), 'aggregate works on what find() hands out'),
        ('cp_lookup', lookup_reads_copies(agg), '$lookup reads the foreign collection through find()'),
    ]
    out = ['(* GENERATED by translate/copysites_tr.py from mongomock/collection.py and aggregate.py - do not edit.',
           '   cp_X = the code path X allocates fresh structure (the copying statements were found). *)',
           'From Coq Require Import Bool.', '']
    for name, val, why in flags:
        out.append('Definition %s : bool := %s.   (* %s *)' % (name, 'true' if val else 'false', why))
    out.append('')
    out.append('Definition all_sites_copy : bool :=')
    out.append('  ' + ' && '.join(n for n, _, _ in flags) + '.')
    out.append('')
    return {'CopySites.v': '\n'.join(out)}
