"""thread.py -> Gen/LockProg.v : the acquire/release routines of RWLock as instruction lists.

Fail-closed: recognises exactly `self._<lock>.acquire()/release()`, `self._<switch>.acquire/
release(self._<lock>)` (inlined from _LightSwitch), `self._counter += 1 / -= 1`,
`if self._counter == <n>: lock.acquire()/release()`, and the try/finally shape of the
reader()/writer() context managers.  Anything else raises."""
import ast
import os


class TranslationError(Exception):
    pass


def _self_attr(node):
    if isinstance(node, ast.Attribute) and isinstance(node.value, ast.Name) and node.value.id == 'self':
        return node.attr
    return None


def _stmts(fn):
    return [s for s in fn.body
            if not (isinstance(s, ast.Expr) and isinstance(s.value, ast.Constant))]


def _switch_body(fn, counter_name):
    """_LightSwitch.acquire/release -> list of symbolic instrs over ('mutex', 'LOCKPARAM', counter)"""
    args = [a.arg for a in fn.args.args]
    if args != ['self', 'lock']:
        raise TranslationError('unexpected _LightSwitch signature %s' % args)
    out = []
    for st in _stmts(fn):
        if isinstance(st, ast.Expr) and isinstance(st.value, ast.Call) and not st.value.args:
            f = st.value.func
            if isinstance(f, ast.Attribute) and f.attr in ('acquire', 'release') and _self_attr(f.value) == '_mutex':
                out.append(('Acq' if f.attr == 'acquire' else 'Rel', 'MUTEX'))
                continue
        if isinstance(st, ast.AugAssign) and _self_attr(st.target) == counter_name \
                and isinstance(st.value, ast.Constant) and st.value.value == 1 \
                and isinstance(st.op, (ast.Add, ast.Sub)):
            out.append(('Inc' if isinstance(st.op, ast.Add) else 'Dec', 'COUNTER'))
            continue
        if isinstance(st, ast.If) and not st.orelse and len(st.body) == 1 \
                and isinstance(st.test, ast.Compare) and len(st.test.ops) == 1 \
                and isinstance(st.test.ops[0], ast.Eq) and _self_attr(st.test.left) == counter_name \
                and isinstance(st.test.comparators[0], ast.Constant) \
                and isinstance(st.test.comparators[0].value, int):
            b = st.body[0]
            if isinstance(b, ast.Expr) and isinstance(b.value, ast.Call) and not b.value.args \
                    and isinstance(b.value.func, ast.Attribute) \
                    and isinstance(b.value.func.value, ast.Name) and b.value.func.value.id == 'lock' \
                    and b.value.func.attr in ('acquire', 'release'):
                out.append(('IfEq', 'COUNTER', st.test.comparators[0].value,
                            ('Acq' if b.value.func.attr == 'acquire' else 'Rel', 'LOCKPARAM')))
                continue
        raise TranslationError('unrecognised statement in _LightSwitch.%s: %s' % (fn.name, ast.unparse(st)))
    return out


def generate(repo):
    src = open(os.path.join(repo, 'mongomock', 'thread.py')).read()
    tree = ast.parse(src)
    classes = {n.name: n for n in tree.body if isinstance(n, ast.ClassDef)}
    if 'RWLock' not in classes or '_LightSwitch' not in classes:
        raise TranslationError('RWLock/_LightSwitch not found')
    rw = {n.name: n for n in classes['RWLock'].body if isinstance(n, ast.FunctionDef)}
    ls = {n.name: n for n in classes['_LightSwitch'].body if isinstance(n, ast.FunctionDef)}

    # lock kinds from the two __init__ bodies
    kinds, switches = {}, {}
    for st in _stmts(rw['__init__']):
        if not (isinstance(st, ast.Assign) and len(st.targets) == 1 and _self_attr(st.targets[0])
                and isinstance(st.value, ast.Call)):
            raise TranslationError('unrecognised RWLock.__init__ statement: %s' % ast.unparse(st))
        name = _self_attr(st.targets[0])
        callee = ast.unparse(st.value.func)
        if callee == '_LightSwitch':
            switches[name] = True
        elif callee in ('threading.Lock', 'threading.RLock'):
            kinds[name] = callee.split('.')[1]
        else:
            raise TranslationError('unknown lock constructor %s' % callee)
    counter_name, mutex_kind = None, None
    for st in _stmts(ls['__init__']):
        if not (isinstance(st, ast.Assign) and len(st.targets) == 1 and _self_attr(st.targets[0])):
            raise TranslationError('unrecognised _LightSwitch.__init__ statement')
        name = _self_attr(st.targets[0])
        if isinstance(st.value, ast.Constant) and st.value.value == 0:
            counter_name = name
        elif isinstance(st.value, ast.Call) and ast.unparse(st.value.func) in ('threading.Lock', 'threading.RLock'):
            if name != '_mutex':
                raise TranslationError('unexpected _LightSwitch lock %s' % name)
            mutex_kind = ast.unparse(st.value.func).split('.')[1]
        else:
            raise TranslationError('unrecognised _LightSwitch.__init__ statement: %s' % ast.unparse(st))
    if counter_name is None or mutex_kind is None:
        raise TranslationError('_LightSwitch needs a counter and a mutex')
    sw_acq = _switch_body(ls['acquire'], counter_name)
    sw_rel = _switch_body(ls['release'], counter_name)

    # numbering: plain locks first, then switches' mutexes
    lock_ids, lock_kinds = {}, []
    for name in kinds:
        lock_ids[name] = len(lock_kinds)
        lock_kinds.append(kinds[name])
    counter_ids = {}
    for name in switches:
        lock_ids[name + '.mutex'] = len(lock_kinds)
        lock_kinds.append(mutex_kind)
        counter_ids[name] = len(counter_ids)

    def routine(fn):
        out = []
        for st in _stmts(fn):
            if not (isinstance(st, ast.Expr) and isinstance(st.value, ast.Call)
                    and isinstance(st.value.func, ast.Attribute)
                    and st.value.func.attr in ('acquire', 'release')):
                raise TranslationError('unrecognised statement in %s: %s' % (fn.name, ast.unparse(st)))
            target = _self_attr(st.value.func.value)
            which = st.value.func.attr
            if target in kinds and not st.value.args:
                out.append(('Acq' if which == 'acquire' else 'Rel', lock_ids[target]))
            elif target in switches and len(st.value.args) == 1 and _self_attr(st.value.args[0]) in kinds:
                param = lock_ids[_self_attr(st.value.args[0])]
                for ins in (sw_acq if which == 'acquire' else sw_rel):
                    def sub(x):
                        return {'MUTEX': lock_ids[target + '.mutex'], 'LOCKPARAM': param,
                                'COUNTER': counter_ids[target]}[x]
                    if ins[0] == 'IfEq':
                        out.append(('IfEq', sub(ins[1]), ins[2], (ins[3][0], sub(ins[3][1]))))
                    else:
                        out.append((ins[0], sub(ins[1])))
            else:
                raise TranslationError('unrecognised call in %s: %s' % (fn.name, ast.unparse(st)))
        return out

    # reader()/writer(): acquire; try: yield ... finally: release
    def ctx_shape(fn, acq, rel):
        body = _stmts(fn)
        ok = (len(body) == 2
              and isinstance(body[0], ast.Expr) and ast.unparse(body[0].value) == 'self.%s()' % acq
              and isinstance(body[1], ast.Try) and len(body[1].finalbody) == 1
              and ast.unparse(body[1].finalbody[0].value) == 'self.%s()' % rel
              and len(body[1].body) == 1 and isinstance(body[1].body[0], ast.Expr)
              and isinstance(body[1].body[0].value, ast.Yield))
        if not ok:
            raise TranslationError('unexpected shape of RWLock.%s' % fn.name)
        # handlers may only re-raise
        for h in body[1].handlers:
            if not (len(h.body) == 1 and isinstance(h.body[0], ast.Raise) and h.body[0].exc is None):
                raise TranslationError('exception handler of RWLock.%s swallows or rewrites' % fn.name)
        return True

    ctx_shape(rw['reader'], '_reader_acquire', '_reader_release')
    ctx_shape(rw['writer'], '_writer_acquire', '_writer_release')

    def coq_instr(i):
        if i[0] == 'IfEq':
            return 'IfEq %d %d (%s %d)' % (i[1], i[2], i[3][0], i[3][1])
        return '%s %d' % (i[0], i[1])

    def coq_list(l):
        return '[' + '; '.join(coq_instr(i) for i in l) + ']'

    names = {v: k for k, v in lock_ids.items()}
    text = [
        '(* GENERATED by translate/thread_tr.py from mongomock/thread.py -- do not edit *)',
        'From Coq Require Import List NArith.', 'Import ListNotations.',
        'Inductive instr : Type :=',
        '| Acq (l : nat) | Rel (l : nat) | Inc (c : nat) | Dec (c : nat)',
        '| IfEq (c : nat) (n : nat) (i : instr).',
        '(* lock numbering: %s *)' % ', '.join('%d = %s' % (i, names[i]) for i in sorted(names)),
        '(* true = threading.RLock (owner + depth), false = threading.Lock *)',
        'Definition lock_is_rlock : list bool := [%s].' % '; '.join(
            'true' if k == 'RLock' else 'false' for k in lock_kinds),
        'Definition n_counters : nat := %d.' % len(counter_ids),
        'Definition reader_acquire : list instr := %s.' % coq_list(routine(rw['_reader_acquire'])),
        'Definition reader_release : list instr := %s.' % coq_list(routine(rw['_reader_release'])),
        'Definition writer_acquire : list instr := %s.' % coq_list(routine(rw['_writer_acquire'])),
        'Definition writer_release : list instr := %s.' % coq_list(routine(rw['_writer_release'])),
        '(* reader()/writer() release in a finally clause and re-raise *)',
        'Definition release_on_raise : bool := true.',
    ]
    return {'LockProg.v': '\n'.join(text) + '\n'}


if __name__ == '__main__':
    import sys
    print(generate(sys.argv[1] if len(sys.argv) > 1 else '/repo')['LockProg.v'])
